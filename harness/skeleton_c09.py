"""C09: fail-closed translator  teneva source (Python ast)  ->  effect skeletons + alias-analysis certificates.

Regenerated from the source tree on every run (`generate(repo, out)` writes coq/Gen/SkelC09.v).  The Coq side
(Model/Heap.v) only CHECKS what is emitted here: `check_fn` validates the certificate of every function variant
against its skeleton, `fn_clean` compares the checked summaries with the exception table.  Everything clever (SSA-like
renaming, flag specialisation, kinds, fixpoints) lives here; a wrong certificate cannot pass, a wrong *skeleton* can
(the classification tables and rules 1-7 below are the trusted part, validated by the dynamic footprint harness).

Rules (DESIGN.md section 6, C09):
 1. parameters the docstring types as int/float/bool/str are values without identity (Scalar);
 2. parameters absent from the docstring's `Args:` are bound to their default, branches on them are folded; every
    documented bool flag a function tests is specialised (one variant per combination); call sites select variants;
 3. in the true branch of `_is_num(x)`, `isinstance(x, (int, float))`, `x is None`, x is Scalar; for `_is_num` this is
    granted only while the source of utils._is_num is `return isinstance(A, <immutable number types>)`;
 4. kinds: a store into a NumPy array copies data (no containment), a store into a list / dict / object records
    containment; `list + list`, `list * k` build a list holding the operands' elements, array arithmetic is fresh;
 5. (withdrawn) every loop may run zero times: after a loop a variable is the join of 'loop skipped' and 'loop ran', so
    one-dimensional tensors (d = 1), q = 1, single samples and empty lists are covered (full() returned a view of Y[0]
    for d = 1 before 4a59233, which the former 'range(1, d) / Y[1:] run at least once' rule hid);
 6. callbacks do not write their arguments; a callback parameter is an object (closure / bound method) like any other;
    what a callback returns may reference anything reachable from its arguments OR from the callback object itself
    (a sampler that hands out a view of a buffer it keeps: this is what flagged rand_custom before 45c0f32);
 7. a subscript whose index is a name bound only to np.where(..)[0], a comparison or `&`/`|` of masks, or an entry of the
    form X[..., k] (an ndarray, never a scalar) is a NumPy advanced index: it yields a copy;
 8. cores of a parameter documented as TT-tensor are 3-D numeric arrays; a local name EVERY binding of which is a
    basic-index view of such a core (or a matrix product of such names) has a known number of dimensions, and a
    subscript fixing every one of them yields a scalar (or, if an entry is an array, an advanced-index copy): no view
    (needed for get(): Q = Y[0][0, i[0], :]; ...; return Q[0] when the loop over range(1, d) runs zero times).
An unknown construct becomes CUnknown "<reason>" on which the Coq check computes false.
"""
import ast
import glob
import os
import re

# ------------------------------------------------------------------------------------------------------------------
# classification tables (trusted; validated dynamically by harness/props/C09.py)
# ------------------------------------------------------------------------------------------------------------------
NP_FRESH = set('''zeros ones empty eye identity arange concatenate hstack vstack stack kron tensordot outer dot sum cumsum
sqrt abs max min maximum minimum linspace tile repeat argsort argmax argmin cos sin arccos arcsin tan arctan exp rint floor
ceil log2 log log10 full prod mean polyder cheb2poly polyroots polyval interp searchsorted ravel_multi_index clip isinf
isnan isfinite any all toeplitz solve solve_triangular norm dct dst fft ifft copy zeros_like ones_like empty_like
full_like sort amin amax std var round trace matmul multiply add subtract divide power sign cumprod diff allclose isclose
count_nonzero flatnonzero inv pinv det unique median cov triu tril default_rng Chebyshev Polynomial polyfit
random randn rand normal uniform choice permutation integers standard_normal'''.split())
NP_FRESH_TUPLE = set('qr rq svd eigh eig lstsq lu where meshgrid unravel_index divmod nonzero indices slogdet'.split())
NP_VIEW = set('''asanyarray asarray reshape transpose swapaxes squeeze ravel real imag diag diagonal flipud fliplr atleast_1d
atleast_2d atleast_3d expand_dims moveaxis rollaxis broadcast_to ascontiguousarray asfortranarray'''.split())
NP_WRITE_FIRST = set('shuffle fill_diagonal copyto put place putmask'.split())
NP_SCALAR = set('isscalar ndim size shape iscomplexobj isrealobj issubdtype dump seed perf_counter tpc'.split())
BUILTIN_SCALAR = set('len int float bool str round isinstance print type repr hash id ord chr callable hasattr range '
                     'complex format'.split())
M_VIEW = set('reshape transpose swapaxes squeeze ravel view'.split())
M_FRESH = set('''flatten astype tolist sum max min argmax argmin argsort mean dot any all cumsum prod std var round conj
nonzero clip repeat take trace normal uniform choice permutation integers random randn standard_normal integ convert
roots deriv fit cumprod searchsorted'''.split())
M_SCALAR = set('item startswith endswith format join split lower upper strip index count is_integer dump close write '
               'read isdigit'.split())
M_WRITE = set('sort fill resize put itemset partition pop remove clear reverse popitem discard'.split())
M_STORE1 = set('append add'.split())          # stores its argument
M_STOREELEM = set('extend update'.split())    # stores the elements of its argument
ATTR_SCALAR = set('shape size ndim dtype itemsize nbytes strides flags labels_ __name__'.split())
ATTR_VIEW = set('T real imag flat base'.split())
MODULE_ROOTS = {'np', 'sp', 'scipy', 'numpy', 'itertools', 'pickle', 'nb', 'os', 'math', 'time', 'functools'}
IMPORTED_FUNCS = {'lu', 'solve_triangular', 'contract', 'tpc', 'reduce', 'dct', 'dst'}
AT_LEAST_ONCE = re.compile(r'^(range\(1, d\)|Y\w*\[1:\])$')      # rule 5, only where the unchanged code needs it

BOT, KA, KLA, KL = 0, 1, 2, 3     # kinds: unknown-yet/number, ndarray, list of ndarrays, anything


def kjoin(a, b):
    if a == BOT:
        return b
    if b == BOT:
        return a
    if a == b:
        return a
    return KL


def kelem(k):
    return {BOT: BOT, KA: KA, KLA: KA, KL: KL}[k]


# ------------------------------------------------------------------------------------------------------------------
# the package
# ------------------------------------------------------------------------------------------------------------------
class FnInfo:
    def __init__(self, qual, node, mod, cls=None, captured=(), is_lambda=False):
        self.qual, self.node, self.mod, self.cls = qual, node, mod, cls
        self.is_lambda = is_lambda
        a = node.args
        self.params = [x.arg for x in a.posonlyargs + a.args] + [x.arg for x in a.kwonlyargs]
        self.npos = len(a.posonlyargs) + len(a.args)
        self.vararg = a.vararg.arg if a.vararg else None
        self.kwarg = a.kwarg.arg if a.kwarg else None
        self.defaults = {}
        pos = a.posonlyargs + a.args
        for p, dv in zip(pos[len(pos) - len(a.defaults):], a.defaults):
            self.defaults[p.arg] = dv
        for p, dv in zip(a.kwonlyargs, a.kw_defaults):
            if dv is not None:
                self.defaults[p.arg] = dv
        self.captured = list(captured)          # closure variables, appended as extra parameters
        self.allparams = self.params + self.captured
        doc = None if is_lambda else ast.get_docstring(node)
        self.doc = doc
        self.doctypes = {}                      # name -> (type string, description)
        if doc:
            m = re.search(r'^Args:\s*\n(.*?)(?=^\S|\Z)', doc, flags=re.S | re.M)
            if m:
                for mm in re.finditer(r'^ {4}(\w+) \(([^)]*)\):\s*(.*)$', m.group(1), flags=re.M):
                    self.doctypes[mm.group(1)] = (mm.group(2), mm.group(3))
        self.tested = set()

        def names_tested(t):
            if isinstance(t, ast.Name):
                self.tested.add(t.id)
            elif isinstance(t, ast.BoolOp):
                for x in t.values:
                    names_tested(x)
            elif isinstance(t, ast.UnaryOp):
                names_tested(t.operand)
            elif isinstance(t, ast.Compare):
                names_tested(t.left)
                for x in t.comparators:
                    names_tested(x)
            elif isinstance(t, ast.Call) and ast.unparse(t.func) in ('teneva._is_num', '_is_num', 'isinstance') \
                    and t.args:
                names_tested(t.args[0])
        for n in ast.walk(node.body if is_lambda else ast.Module(body=node.body, type_ignores=[])):
            if isinstance(n, (ast.If, ast.IfExp, ast.While)):
                names_tested(n.test)
            if isinstance(n, ast.Assert):
                names_tested(n.test)

    def scalar_param(self, p):
        """rule 1"""
        if p in self.doctypes:
            t = self.doctypes[p][0]
            return not re.search(r'list|ndarray|dict|function|callable|tuple|array|object', t)
        return False

    def func_param(self, p):
        return p in self.doctypes and bool(re.search(r'function|callable', self.doctypes[p][0])) \
            and not re.search(r'list', self.doctypes[p][0])

    def param_kind(self, p):
        if p not in self.doctypes:
            return KL
        t, desc = self.doctypes[p]
        if re.search(r'dict|tuple|function|callable|object', t):
            return KL
        if 'list' in t:
            if re.fullmatch(r'(int, float, )?list', t.strip()) and \
                    re.match(r'((\w|\*)+-dimensional )?Q?TT-tensor\b(?!s)', desc.strip()):
                return KLA
            if re.match(r'list of\s+np\.ndarray', t.strip()):
                return KLA
            if 'ndarray' in t and re.match(r'(int, float, )?list, np\.ndarray', t.strip()) and False:
                return KL
            return KL
        if 'ndarray' in t:
            return KA
        return KL


class Package:
    def __init__(self, repo):
        self.repo = repo
        self.funcs = {}        # qual -> FnInfo
        self.classes = {}      # 'mod.Class' -> {method name -> qual}
        self.props = {}        # property name -> [qual]
        self.methods = {}      # method name -> [qual]
        self.modfuncs = {}     # mod -> {name -> qual}
        self.modclasses = {}   # mod -> {name -> 'mod.Class'}
        self.exports = {}      # exported name -> ('func', qual) | ('class', 'mod.Class')
        self.errors = []
        for p in sorted(glob.glob(os.path.join(repo, 'teneva', '*.py'))):
            mod = os.path.basename(p)[:-3]
            if mod == '__init__':
                continue
            tree = ast.parse(open(p).read())
            self.modfuncs[mod], self.modclasses[mod] = {}, {}
            if not hasattr(self, 'modnames'):
                self.modnames = {}
            self.modnames[mod] = set()
            for n in ast.walk(tree):
                if isinstance(n, (ast.Import, ast.ImportFrom)):
                    self.modnames[mod] |= {(al.asname or al.name).split('.')[0] for al in n.names}
            for n in tree.body:
                if isinstance(n, (ast.FunctionDef, ast.ClassDef)):
                    self.modnames[mod].add(n.name)
                elif isinstance(n, ast.Assign):
                    self.modnames[mod] |= {x.id for t in n.targets for x in ast.walk(t) if isinstance(x, ast.Name)}
            for n in tree.body:
                if isinstance(n, ast.FunctionDef):
                    q = f'{mod}.{n.name}'
                    self.funcs[q] = FnInfo(q, n, mod)
                    self.modfuncs[mod][n.name] = q
                elif isinstance(n, ast.ClassDef):
                    cq = f'{mod}.{n.name}'
                    self.modclasses[mod][n.name] = cq
                    self.classes[cq] = {}
                    for m in n.body:
                        if isinstance(m, ast.FunctionDef):
                            q = f'{cq}.{m.name}'
                            self.funcs[q] = FnInfo(q, m, mod, cls=cq)
                            self.classes[cq][m.name] = q
                            isprop = any(isinstance(d, ast.Name) and d.id == 'property' for d in m.decorator_list)
                            (self.props if isprop else self.methods).setdefault(m.name, []).append(q)
        init = ast.parse(open(os.path.join(repo, 'teneva', '__init__.py')).read())
        for n in init.body:
            if isinstance(n, ast.ImportFrom) and n.level == 1:
                for al in n.names:
                    nm = al.asname or al.name
                    if al.name in self.modfuncs.get(n.module, {}):
                        self.exports[nm] = ('func', self.modfuncs[n.module][al.name])
                    elif al.name in self.modclasses.get(n.module, {}):
                        self.exports[nm] = ('class', self.modclasses[n.module][al.name])
                    else:
                        self.errors.append(f'__init__ imports unknown name {n.module}.{al.name}')


# ------------------------------------------------------------------------------------------------------------------
# translation of one function variant into the pre-IR
# ------------------------------------------------------------------------------------------------------------------
class FuncVal:
    """a nested def / lambda known statically: lifted function + the atoms of its captured variables"""
    def __init__(self, qual, cap_atoms, var):
        self.qual, self.cap_atoms, self.var = qual, cap_atoms, var


SCALAR = 'scalar'      # marker in `cur`: the name holds a value without identity
FUNC = 'func'          # marker: documented callback parameter
# guard specialisation: the exception table allows a pass-through only while the named test holds, so the function is
# specialised on the test like on a boolean flag (the test text is the pseudo-flag; callers get both variants)
GUARD_SPLITS = {'core.core_stab': 'v_max <= thr'}
CALLBACK_OBJECTS = True   # rule 6: a callback parameter is an object (closure): what it returns may reference its cells


class Variant:
    def __init__(self, key, info):
        self.key, self.info = key, info
        self.idx = None
        self.body = None
        self.nvars = 0
        self.nsites = 0
        self.varkind = {}      # var -> initial kind (params)
        self.retkind = BOT
        self.wr0, self.wr, self.esc, self.sto = set(), set(), set(), set()
        self.unknown = []


class Tr:
    def __init__(self, gen, variant):
        self.gen, self.pkg, self.v, self.info = gen, gen.pkg, variant, variant.info
        self.mod = self.info.mod
        self.consts = dict(variant.key[1])
        self.cur = {}
        self.funcvals = {}
        self.loops = []        # stack of dicts name -> head var (and 'after' vars)
        self.blk = []
        info = self.info
        self.v.nvars = len(info.allparams)
        for i, p in enumerate(info.allparams):
            self.v.varkind[i] = KL
            if p in self.consts:
                dv = info.defaults.get(p)
                self.cur[p] = SCALAR
                continue
            if p in info.params and info.scalar_param(p):
                self.cur[p] = SCALAR
            elif p in info.params and info.func_param(p) and not CALLBACK_OBJECTS:
                self.cur[p] = FUNC
            else:
                self.cur[p] = i
                self.v.varkind[i] = info.param_kind(p) if p in info.params else KL
        # rule 2: undocumented parameter whose default is a lambda and which this variant leaves at its default
        for p, c in self.consts.items():
            if c == '<lambda-default>':
                lam = info.defaults[p]
                q = self.gen.lift(self, lam, p, [])
                self.funcvals[p] = FuncVal(q, [], None)
        self.arridx = self.scan_arridx()
        self.assigned_all = self.scan_assigned(info.node.body if not info.is_lambda else [])

    # -- helpers -------------------------------------------------------------------------------------------------
    def newvar(self):
        self.v.nvars += 1
        return self.v.nvars - 1

    def newsite(self):
        self.v.nsites += 1
        return self.v.nsites - 1

    def emit(self, node):
        self.blk.append(node)

    def unknown(self, why, node=None):
        ln = getattr(node, 'lineno', 0)
        msg = f'{self.info.qual}:{ln}: {why}'
        self.v.unknown.append(msg)
        self.emit(('unknown', re.sub(r'[^\w .:<>=\-\[\](),/]', '_', msg)[:160]))
        return []

    def define(self, expr, kind=None):
        x = self.newvar()
        self.emit(('def', x, expr))
        return [x]

    def fresh(self, ys=(), kind=KA):
        return self.define(('fresh', self.newsite(), sorted(set(ys)), kind))

    def elem(self, ys):
        if not ys:
            return []
        return self.define(('elem', sorted(set(ys))))

    def sub(self, ys):
        """subscript / unpacking: a view of the object itself or one of its elements"""
        if not ys:
            return []
        return sorted(set(ys + self.elem(ys)))

    def subk(self, ys, is_slice):
        """kind-dependent subscript: list[index] -> element, list[slice] -> the list, array[..] -> view"""
        if not ys:
            return []
        return self.define(('sub?', sorted(set(ys)), bool(is_slice)))

    def iterk(self, ys):
        """kind-dependent iteration / unpacking: list -> its elements, array -> views of itself"""
        if not ys:
            return []
        return self.define(('iter?', sorted(set(ys))))

    def scan_arridx(self):
        """rule 7"""
        forms = {}
        if self.info.is_lambda:
            return set()
        for n in ast.walk(ast.Module(body=self.info.node.body, type_ignores=[])):
            tg, val = [], None
            if isinstance(n, ast.Assign):
                tg, val = n.targets, n.value
            elif isinstance(n, (ast.AugAssign, ast.AnnAssign)):
                tg, val = [n.target], n.value
            elif isinstance(n, (ast.For, ast.comprehension)):
                tg, val = [n.target], None
            elif isinstance(n, ast.withitem) and n.optional_vars is not None:
                tg, val = [n.optional_vars], None
            for t in tg:
                for x in ast.walk(t):
                    if isinstance(x, ast.Name) and isinstance(x.ctx, ast.Store):
                        ok = isinstance(t, ast.Name) and isinstance(n, ast.Assign) and val is not None and (
                            isinstance(val, ast.Compare)
                            or (isinstance(val, ast.BinOp) and isinstance(val.op, (ast.BitAnd, ast.BitOr)))
                            or (isinstance(val, ast.Subscript) and isinstance(val.value, ast.Call)
                                and ast.unparse(val.value.func) == 'np.where' and len(val.value.args) == 1))
                        forms.setdefault(x.id, []).append(ok)
        return {k for k, v in forms.items() if all(v) and k not in self.info.allparams}

    def scan_assigned(self, stmts):
        out = set()

        def walk(n, top=True):
            if isinstance(n, (ast.FunctionDef, ast.Lambda, ast.ClassDef)) and not top:
                if isinstance(n, ast.FunctionDef):
                    out.add(n.name)
                return
            if isinstance(n, (ast.ListComp, ast.SetComp, ast.DictComp, ast.GeneratorExp)):
                return
            if isinstance(n, ast.Name) and isinstance(n.ctx, (ast.Store, ast.Del)):
                out.add(n.id)
            for c in ast.iter_child_nodes(n):
                walk(c, False)
        for s in stmts:
            walk(s, False) if not isinstance(s, (ast.FunctionDef,)) else out.add(s.name)
        return out

    # -- constant folding and refinement -----------------------------------------------------------------------
    def const_test(self, t):
        """True / False if the test is decided by the variant's constants, else None"""
        g = GUARD_SPLITS.get(self.info.qual)
        if g is not None and g in self.consts and ast.unparse(t) == g:
            return bool(self.consts[g])
        c = self.const_val(t)
        if c is not NOCONST:
            try:
                return bool(c)
            except Exception:
                return None
        if isinstance(t, ast.UnaryOp) and isinstance(t.op, ast.Not):
            c = self.const_test(t.operand)
            return None if c is None else (not c)
        if isinstance(t, ast.BoolOp):
            vals = [self.const_test(v) for v in t.values]
            if isinstance(t.op, ast.And):
                if any(v is False for v in vals):
                    return False
                if all(v is True for v in vals):
                    return True
            else:
                if any(v is True for v in vals):
                    return True
                if all(v is False for v in vals):
                    return False
            return None
        if isinstance(t, ast.Compare) and len(t.ops) == 1:
            # `flag is False` / `flag is True` on a parameter: a caller may pass 0, 1, np.bool_(..), which are equally falsy /
            # truthy but are not the singletons -> undecided, both branches are analysed
            if isinstance(t.ops[0], (ast.Is, ast.IsNot)):
                for x, y in ((t.left, t.comparators[0]), (t.comparators[0], t.left)):
                    if isinstance(x, ast.Name) and x.id in self.info.allparams and isinstance(y, ast.Constant) \
                            and isinstance(y.value, bool):
                        return None
            a, b = self.const_val(t.left), self.const_val(t.comparators[0])
            if a is not NOCONST and b is not NOCONST:
                op = t.ops[0]
                try:
                    if isinstance(op, ast.Is):
                        return a is b if (a is None or b is None or isinstance(a, bool) or isinstance(b, bool)) else a == b
                    if isinstance(op, ast.IsNot):
                        return not (a is b) if (a is None or b is None or isinstance(a, bool) or isinstance(b, bool)) else a != b
                    if isinstance(op, ast.Eq):
                        return a == b
                    if isinstance(op, ast.NotEq):
                        return a != b
                    if isinstance(op, ast.In):
                        return a in b
                    if isinstance(op, ast.NotIn):
                        return a not in b
                except Exception:
                    return None
            # `x is None` where x is known to be an object (never None is NOT known) -> undecided
        return None

    def const_val(self, e):
        if isinstance(e, ast.Constant):
            return e.value
        if isinstance(e, ast.Name) and e.id in self.consts and self.consts[e.id] != '<lambda-default>' \
                and self.cur.get(e.id) is SCALAR:
            return self.consts[e.id]
        if isinstance(e, (ast.List, ast.Tuple)):
            vals = [self.const_val(x) for x in e.elts]
            if all(v is not NOCONST for v in vals):
                return vals
        return NOCONST

    def refine(self, t, truth):
        """dict name -> 'scalar' | 'array' holding when the test evaluates to `truth`"""
        if isinstance(t, ast.UnaryOp) and isinstance(t.op, ast.Not):
            return self.refine(t.operand, not truth)
        if isinstance(t, ast.BoolOp):
            subs = [self.refine(v, truth) for v in t.values]
            conj = (isinstance(t.op, ast.And) and truth) or (isinstance(t.op, ast.Or) and not truth)
            out = {}
            if conj:
                for s in subs:
                    out.update(s)
            else:
                keys = set(subs[0])
                for s in subs[1:]:
                    keys &= set(s)
                for k in keys:
                    if all(s[k] == subs[0][k] for s in subs):
                        out[k] = subs[0][k]
            return out
        if isinstance(t, ast.Call) and t.args and isinstance(t.args[0], ast.Name) and truth:
            fn = ast.unparse(t.func)
            nm = t.args[0].id
            if fn in ('teneva._is_num', '_is_num') and len(t.args) == 1:
                # rule 3 is granted only while the helper really tests for IMMUTABLE numbers (checked on its source)
                return {nm: 'scalar'} if self.gen.is_num_immutable() else {}
            if fn == 'isinstance' and len(t.args) == 2:
                ty = ast.unparse(t.args[1])
                tys = set(re.findall(r'[\w\.]+', ty))
                if tys and tys <= {'int', 'float', 'bool', 'str', 'complex', 'np.int32', 'np.int64', 'np.float32',
                                   'np.float64', 'np.integer', 'np.floating'}:
                    return {nm: 'scalar'}
                if tys == {'np.ndarray'}:
                    return {nm: 'array'}
        if isinstance(t, ast.Compare) and len(t.ops) == 1 and isinstance(t.left, ast.Name) and \
                isinstance(t.comparators[0], ast.Constant) and t.comparators[0].value is None:
            if (isinstance(t.ops[0], ast.Is) and truth) or (isinstance(t.ops[0], ast.IsNot) and not truth):
                return {t.left.id: 'scalar'}
        return {}

    def apply_refine(self, r):
        for nm, what in r.items():
            c = self.cur.get(nm)
            if c is None or c is SCALAR or c is FUNC:
                continue
            if what == 'scalar':
                self.cur[nm] = SCALAR
            else:
                self.cur[nm] = self.define(('cast', [c], KA))[0]

    # -- names ------------------------------------------------------------------------------------------------------
    def atom_of_name(self, nm):
        c = self.cur.get(nm)
        if c is None or c is SCALAR or c is FUNC:
            return []
        return [c]

    def bind(self, nm, atom):
        """assignment to a plain name: a new version"""
        self.funcvals.pop(nm, None)
        if not atom:
            self.cur[nm] = SCALAR
        elif len(atom) == 1:
            # still a new version, so that loop-head copies see a distinct variable
            self.cur[nm] = self.define(('vars', atom))[0]
        else:
            self.cur[nm] = self.define(('vars', sorted(set(atom))))[0]

    def is_module_path(self, e):
        while isinstance(e, ast.Attribute):
            e = e.value
        return isinstance(e, ast.Name) and e.id in MODULE_ROOTS and self.cur.get(e.id) is None

    # -- expressions ------------------------------------------------------------------------------------------------
    def E(self, e):
        """atom (list of variables whose object the value may be; [] = no identity)"""
        m = getattr(self, 'E_' + type(e).__name__, None)
        if m is None:
            return self.unknown(f'expression {type(e).__name__}', e)
        return m(e)

    def E_Constant(self, e):
        return []

    def E_JoinedStr(self, e):
        for v in e.values:
            if isinstance(v, ast.FormattedValue):
                self.E(v.value)
        return []

    def E_FormattedValue(self, e):
        self.E(e.value)
        return []

    def E_Name(self, e):
        if e.id in self.funcvals and self.funcvals[e.id].var is not None:
            return [self.funcvals[e.id].var]
        return self.atom_of_name(e.id)

    def E_Compare(self, e):
        a = self.E(e.left)
        for c in e.comparators:
            a = a + self.E(c)
        return self.fresh([], KA) if a else []

    def E_UnaryOp(self, e):
        a = self.E(e.operand)
        if isinstance(e.op, ast.Not) or not a:
            return []
        return self.fresh([], KA)

    def E_BoolOp(self, e):
        out = []
        for v in e.values:
            out += self.E(v)
        return sorted(set(out))

    def E_BinOp(self, e):
        l, r = self.E(e.left), self.E(e.right)
        if not l and not r:
            return []
        if isinstance(e.op, (ast.Add, ast.Mult)):
            return self.define(('bin?', self.newsite(), 'add' if isinstance(e.op, ast.Add) else 'mul', l, r))
        return self.fresh([], KA)

    def E_IfExp(self, e):
        c = self.const_test(e.test)
        if c is True:
            return self.E(e.body)
        if c is False:
            return self.E(e.orelse)
        self.E(e.test)
        saved, cur0 = self.blk, dict(self.cur)
        x = self.newvar()
        res, blocks = [], []
        for br, truth in ((e.body, True), (e.orelse, False)):
            self.blk = []
            self.cur = dict(cur0)
            self.apply_refine(self.refine(e.test, truth))
            a = self.E(br)
            if a:
                self.emit(('def', x, ('vars', a)))
                res = [x]
            blocks.append(self.blk)
        self.blk, self.cur = saved, cur0
        if blocks[0] or blocks[1]:
            self.emit(('if', blocks[0], blocks[1]))
        return res

    def E_Starred(self, e):
        return self.E(e.value)

    def E_List(self, e):
        ys = []
        for x in e.elts:
            ys += self.sub(self.E(x.value)) if isinstance(x, ast.Starred) else self.E(x)
        return self.define(('fresh', self.newsite(), sorted(set(ys)), 'list'))
    E_Tuple = E_List
    E_Set = E_List

    def E_Dict(self, e):
        ys = []
        for k, v in zip(e.keys, e.values):
            if k is not None:
                ys += self.E(k)
            ys += self.E(v) if k is not None else self.sub(self.E(v))
        return self.define(('fresh', self.newsite(), sorted(set(ys)), KL))

    def E_Slice(self, e):
        for x in (e.lower, e.upper, e.step):
            if x is not None:
                self.E(x)
        return []

    def E_Attribute(self, e):
        if self.is_module_path(e):
            return []
        if isinstance(e.value, ast.Name) and e.value.id == 'teneva' and self.cur.get('teneva') is None:
            return []
        recv = self.E(e.value)
        if e.attr in ATTR_SCALAR:
            return []
        if e.attr in ATTR_VIEW:
            return recv
        if e.attr in self.pkg.props and recv:
            cls = self.static_class(e.value)
            qs = [q for q in self.pkg.props[e.attr] if cls is None or q.startswith(cls + '.')] or self.pkg.props[e.attr]
            return self.call_package(qs, [recv], {}, e, recv_first=True)
        return self.elem(recv)

    def is_advanced_index(self, idx):
        parts = idx.elts if isinstance(idx, ast.Tuple) else [idx]

        def ell(p):
            # X[..., k]: NumPy returns an ndarray (0-d at least), never a scalar, for an index with an Ellipsis, so as an
            # index entry it is an advanced index (rule 7); on a list X it raises TypeError
            if not isinstance(p, ast.Subscript):
                return False
            q = p.slice.elts if isinstance(p.slice, ast.Tuple) else [p.slice]
            return any(isinstance(x, ast.Constant) and x.value is Ellipsis for x in q)
        return any((isinstance(p, ast.Name) and p.id in self.arridx) or ell(p) for p in parts)

    # -- rule 8: number of dimensions of views of TT-cores -----------------------------------------------------------
    def tt_param(self, nm):
        info = self.info
        return nm in info.params and self.cur.get(nm) not in (None, SCALAR, FUNC) and info.param_kind(nm) == KLA \
            and nm not in self.assigned_all

    def scan_nd(self):
        """name -> number of dimensions, for local names EVERY binding of which is a basic-index view of a core of a
        TT-tensor parameter (cores are 3-D numeric arrays: the package's data structure) or a matrix product of such;
        computed under the reading 'every non-slice index entry is an integer' -- where an entry is an array instead, that
        subscript is an advanced index and yields a copy, so nothing derived from it aliases the argument either"""
        if self.info.is_lambda:
            return {}
        binds = {}
        for n in ast.walk(ast.Module(body=self.info.node.body, type_ignores=[])):
            if isinstance(n, ast.Assign) and len(n.targets) == 1 and isinstance(n.targets[0], ast.Name):
                binds.setdefault(n.targets[0].id, []).append(n.value)
            elif isinstance(n, ast.For) and isinstance(n.target, ast.Name):
                binds.setdefault(n.target.id, []).append(('iter', n.iter))
            else:
                tg = []
                if isinstance(n, ast.Assign):
                    tg = n.targets
                elif isinstance(n, (ast.AugAssign, ast.AnnAssign, ast.For, ast.comprehension)):
                    tg = [n.target]
                elif isinstance(n, ast.withitem) and n.optional_vars is not None:
                    tg = [n.optional_vars]
                elif isinstance(n, ast.NamedExpr):
                    tg = [n.target]
                for t in tg:
                    for x in ast.walk(t):
                        if isinstance(x, ast.Name):
                            binds.setdefault(x.id, []).append(None)       # a binding we do not understand
        nd = {}

        def nde(e, guess):
            if isinstance(e, tuple):       # loop variable over a TT-tensor parameter (or a slice of it)
                it = e[1]
                if isinstance(it, ast.Subscript) and isinstance(it.slice, ast.Slice):
                    it = it.value
                return 3 if isinstance(it, ast.Name) and self.tt_param(it.id) else None
            if e is None:
                return None
            if isinstance(e, ast.IfExp):
                if isinstance(e.test, ast.Name) and e.test.id in self.consts and isinstance(self.consts[e.test.id], bool):
                    return nde(e.body if self.consts[e.test.id] else e.orelse, guess)      # rule 2 folded this branch
                a, b = nde(e.body, guess), nde(e.orelse, guess)
                return a if a is not None and a == b else None
            if isinstance(e, ast.Name):
                return guess.get(e.id)
            if isinstance(e, ast.BinOp) and isinstance(e.op, ast.MatMult):
                return {(1, 2): 1, (2, 2): 2, (2, 1): 1}.get((nde(e.left, guess), nde(e.right, guess)))
            if isinstance(e, ast.Subscript):
                if isinstance(e.value, ast.Name) and self.tt_param(e.value.id):
                    return None if isinstance(e.slice, (ast.Slice, ast.Tuple)) else 3
                nb = nde(e.value, guess)
                if nb is None:
                    return None
                parts = e.slice.elts if isinstance(e.slice, ast.Tuple) else [e.slice]
                if any(isinstance(x, ast.Starred) or (isinstance(x, ast.Constant) and (x.value is Ellipsis or x.value is None))
                       for x in parts):
                    return None
                k = sum(1 for x in parts if not isinstance(x, ast.Slice))
                return nb - k if nb - k >= 0 else None
            return None
        cand = {nm: None for nm in binds if nm not in self.info.allparams}
        for _ in range(4):          # names bound through each other (Q = Q @ ...): iterate from the non-recursive bindings
            new = {}
            for nm, vs in binds.items():
                if nm in self.info.allparams or any(v is None for v in vs):
                    continue
                vals = [nde(v, dict(cand, **nd)) for v in vs]
                known = {v for v in vals if v is not None}
                if len(known) == 1:
                    new[nm] = (known.pop(), all(v is not None for v in vals))
            cand = {nm: v for nm, (v, full) in new.items()}
            nd = {nm: v for nm, (v, full) in new.items() if full}
        self._nde = lambda e: nde(e, nd)
        return nd

    def scalar_by_rule8(self, e):
        """e = base[idx] where base is a view of a TT-core with known ndim and idx fixes every dimension"""
        if not hasattr(self, 'ndnames'):
            self.ndnames = self.scan_nd()
        if self.info.is_lambda:
            return False
        nb = self._nde(e.value)
        if nb is None:
            return False
        parts = e.slice.elts if isinstance(e.slice, ast.Tuple) else [e.slice]
        if any(isinstance(x, ast.Starred) or (isinstance(x, ast.Constant) and (x.value is Ellipsis or x.value is None))
               for x in parts):
            return False
        return sum(1 for x in parts if not isinstance(x, ast.Slice)) >= nb

    def E_Subscript(self, e):
        if self.is_module_path(e.value):      # np.r_[...], np.c_[...]
            self.E(e.slice)
            return self.fresh([], KA)
        base = self.E(e.value)
        self.E(e.slice)
        if not base:
            return []
        if self.is_advanced_index(e.slice) or self.scalar_by_rule8(e):
            return self.define(('copy?', self.newsite(), base))
        return self.subk(base, isinstance(e.slice, ast.Slice))

    def comp(self, e, elts):
        """comprehension: a loop storing into a fresh container"""
        saved_cur = dict(self.cur)
        saved_fv = dict(self.funcvals)
        res = self.define(('fresh', self.newsite(), [], 'list' if not isinstance(e, ast.DictComp) else KL))

        def gen(k):
            if k == len(e.generators):
                ys = []
                for x in elts:
                    ys += self.E(x)
                self.emit(('store!', res, sorted(set(ys))))
                return
            g = e.generators[k]
            it = self.iter_elem(g.iter)
            outer = self.blk
            self.blk = []
            self.assign_target(g.target, it)
            for c in g.ifs:
                self.E(c)
            gen(k + 1)
            body, self.blk = self.blk, outer
            self.emit(('loop', False, body))
        gen(0)
        self.cur, self.funcvals = saved_cur, saved_fv
        return res

    def E_ListComp(self, e):
        return self.comp(e, [e.elt])
    E_SetComp = E_ListComp
    E_GeneratorExp = E_ListComp

    def E_DictComp(self, e):
        return self.comp(e, [e.key, e.value])

    def E_Lambda(self, e):
        return self.make_closure(e, '<lambda>')

    def make_closure(self, node, name):
        free = self.free_names(node)
        caps, atoms = [], []
        for nm in sorted(free):
            if nm in self.cur or nm in self.funcvals:
                if nm in self.funcvals and self.funcvals[nm].var is None:
                    continue
                caps.append(nm)
                atoms.append(self.E_Name(ast.Name(id=nm, ctx=ast.Load())))
            elif nm in self.assigned_all:
                self.unknown(f'closure {name} captures variable {nm} defined later', node)
        q = self.gen.lift(self, node, name, caps)
        ys = []
        for a in atoms:
            ys += a
        var = self.define(('fresh', self.newsite(), sorted(set(ys)), KL))[0]
        fv = FuncVal(q, atoms, var)
        self._last_closure = fv
        return [var]

    def free_names(self, node):
        bound = set()
        a = node.args
        for x in a.posonlyargs + a.args + a.kwonlyargs:
            bound.add(x.arg)
        body = [node.body] if isinstance(node, ast.Lambda) else node.body
        used = set()
        for b in body:
            for n in ast.walk(b):
                if isinstance(n, ast.Name):
                    (bound if isinstance(n.ctx, ast.Store) else used).add(n.id)
                if isinstance(n, ast.arg):
                    bound.add(n.arg)
        return used - bound

    # -- iteration ----------------------------------------------------------------------------------------------
    def iter_elem(self, it):
        """structure of one element of iterating `it`: an atom, or ('tuple', [structures])"""
        if isinstance(it, ast.Call) and isinstance(it.func, ast.Name) and it.func.id not in self.cur:
            f = it.func.id
            if f == 'range':
                for a in it.args:
                    self.E(a)
                return []
            if f == 'enumerate' and it.args:
                return ('tuple', [[], self.iter_elem(it.args[0])])
            if f == 'zip':
                return ('tuple', [self.iter_elem(a) for a in it.args])
            if f == 'reversed' and len(it.args) == 1:
                return self.iter_elem(it.args[0])
        if isinstance(it, ast.Call) and ast.unparse(it.func) == 'itertools.product':
            return ('tuple', [self.iter_elem(a) for a in it.args])
        if isinstance(it, ast.Call) and isinstance(it.func, ast.Attribute) and not it.args:
            if it.func.attr == 'items':
                r = self.E(it.func.value)
                return ('tuple', [self.elem(r), self.elem(r)])
            if it.func.attr in ('keys', 'values'):
                return self.elem(self.E(it.func.value))
        return self.sub_iter(self.E(it))

    def sub_iter(self, atom):
        # iterating an ndarray yields views of its rows, iterating a list yields its elements
        return self.iterk(atom)

    def materialise(self, st):
        if isinstance(st, tuple):
            ys = []
            for s in st[1]:
                ys += self.materialise(s)
            return self.define(('fresh', self.newsite(), sorted(set(ys)), 'list'))
        return st

    def assign_target(self, t, st):
        """bind target t to a value of structure st"""
        if isinstance(t, (ast.Tuple, ast.List)):
            if isinstance(st, tuple) and len(st[1]) == len(t.elts) and not any(isinstance(x, ast.Starred) for x in t.elts):
                for x, s in zip(t.elts, st[1]):
                    self.assign_target(x, s)
                return
            a = self.materialise(st)
            el = self.iterk(a)
            for x in t.elts:
                if isinstance(x, ast.Starred):
                    self.assign_target(x.value, self.define(('fresh', self.newsite(), el, KL)) if el else [])
                else:
                    self.assign_target(x, el)
            return
        a = self.materialise(st)
        if isinstance(t, ast.Name):
            self.bind(t.id, a)
        elif isinstance(t, ast.Subscript):
            base = self.E(t.value)
            self.E(t.slice)
            if base:
                self.emit(('store?', base, a))
        elif isinstance(t, ast.Attribute):
            base = self.E(t.value)
            if base:
                self.emit(('store!', base, a))
        else:
            self.unknown(f'assignment target {type(t).__name__}', t)

    # -- calls --------------------------------------------------------------------------------------------------
    def E_Call(self, e):
        f = e.func
        kw = {k.arg: k.value for k in e.keywords if k.arg is not None}
        if any(k.arg is None for k in e.keywords):
            return self.unknown('call with **kwargs', e)
        if isinstance(f, ast.Name):
            nm = f.id
            if nm in self.funcvals:
                fv = self.funcvals[nm]
                return self.call_package([fv.qual], [self.argatom(a) for a in e.args], kw, e, extra=fv.cap_atoms,
                                         raw_args=e.args)
            c = self.cur.get(nm)
            if nm == 'self' and self.info.cls and '__call__' in self.pkg.classes[self.info.cls] and c not in (None, SCALAR, FUNC):
                return self.call_package([self.pkg.classes[self.info.cls]['__call__']], None, kw, e, raw_args=e.args,
                                         self_atom=[c])
            if c is FUNC or (c is not None and c is not SCALAR):
                return self.callback([[c]] if c is not FUNC else [], e.args, kw, e)
            if c is SCALAR:
                self.args_eval(e.args, kw)
                return self.fresh([], KA)
            if nm in self.pkg.modfuncs[self.mod]:
                return self.call_package([self.pkg.modfuncs[self.mod][nm]], None, kw, e, raw_args=e.args)
            if nm in self.pkg.modclasses[self.mod]:
                return self.construct(self.pkg.modclasses[self.mod][nm], e, kw)
            if nm in IMPORTED_FUNCS:
                return self.call_numpy(nm, e, kw)
            import builtins
            if not hasattr(builtins, nm) and nm not in self.pkg.modnames[self.mod]:
                # neither local, nor module-level, nor builtin: evaluating it raises NameError, nothing else happens
                self.gen.notes.append(f'{self.info.qual}:{e.lineno}: name {nm} is undefined (NameError at run time)')
                self.args_eval(e.args, kw)
                return []
            return self.call_builtin(nm, e, kw)
        if isinstance(f, ast.Attribute):
            if isinstance(f.value, ast.Name) and f.value.id == 'teneva' and self.cur.get('teneva') is None:
                ex = self.pkg.exports.get(f.attr)
                if ex is None:
                    return self.unknown(f'teneva.{f.attr} is not exported', e)
                if ex[0] == 'func':
                    return self.call_package([ex[1]], None, kw, e, raw_args=e.args)
                return self.construct(ex[1], e, kw)
            if self.is_module_path(f):
                return self.call_numpy(f.attr, e, kw)
            return self.call_method(f, e, kw)
        if isinstance(f, ast.BoolOp):        # (func or _func)(...)
            saved, cur0 = self.blk, dict(self.cur)
            x = self.newvar()
            blocks = []
            for alt in f.values:
                self.blk = []
                self.cur = dict(cur0)
                a = self.E_Call(ast.Call(func=alt, args=e.args, keywords=e.keywords, lineno=e.lineno,
                                         col_offset=e.col_offset))
                if a:
                    self.emit(('def', x, ('vars', a)))
                blocks.append(self.blk)
            self.blk, self.cur = saved, cur0
            node = blocks[-1]
            for b in reversed(blocks[:-1]):
                node = [('if', b, node)]
            self.blk.extend(node)
            return [x]
        recv = self.E(f)
        return self.callback([recv], e.args, kw, e)

    def static_class(self, e):
        """class of the receiver when it is evident: `self` in a method, a constructor call"""
        if isinstance(e, ast.Name) and e.id == 'self' and self.info.cls:
            return self.info.cls
        if isinstance(e, ast.Call):
            f = e.func
            if isinstance(f, ast.Name) and f.id in self.pkg.modclasses[self.mod] and f.id not in self.cur:
                return self.pkg.modclasses[self.mod][f.id]
            if isinstance(f, ast.Attribute) and isinstance(f.value, ast.Name) and f.value.id == 'teneva' \
                    and self.pkg.exports.get(f.attr, ('', ''))[0] == 'class':
                return self.pkg.exports[f.attr][1]
        return None

    def argatom(self, a):
        if isinstance(a, ast.Starred):
            return ('star', self.sub(self.E(a.value)))
        return self.E(a)

    def args_eval(self, args, kw):
        out = []
        for a in args:
            x = self.argatom(a)
            out.append(x[1] if isinstance(x, tuple) else x)
        for k, v in kw.items():
            out.append(self.E(v))
        return out

    def callback(self, recvs, args, kw, e):
        """rule 6"""
        al = [r for r in recvs if r] + [a for a in self.args_eval(args, kw)]
        return self.define(('callback', self.newsite(), [sorted(set(a)) for a in al]))

    def construct(self, cq, e, kw):
        obj = self.define(('fresh', self.newsite(), [], KL))
        init = self.pkg.classes[cq].get('__init__')
        if init:
            self.call_package([init], None, kw, e, raw_args=e.args, self_atom=obj)
        return obj

    def call_package(self, quals, argatoms, kw, e, extra=(), raw_args=None, self_atom=None, recv_first=False):
        """call of package function(s); several candidates -> alternatives"""
        if raw_args is None:
            raw_args = []
        if argatoms is None:
            argatoms = [self.argatom(a) for a in raw_args]
        if self_atom is not None:
            argatoms = [self_atom] + argatoms
            raw_args = [None] + list(raw_args)
        if recv_first:
            raw_args = [None] * len(argatoms)
        kwatoms = {k: self.E(v) for k, v in kw.items()}
        results, blocks = [], []
        saved = self.blk
        x = self.newvar()
        for q in quals:
            info = self.pkg.funcs.get(q) or self.gen.lifted[q]
            self.blk = []
            # positional / keyword -> parameter
            pa, raw = {}, {}
            star_from = None
            pos_params = info.params[:info.npos]
            i = 0
            for a, r in zip(argatoms, list(raw_args) + [None] * len(argatoms)):
                if isinstance(a, tuple):
                    star_from = i if star_from is None else star_from
                    for p in pos_params[i:]:
                        pa[p] = sorted(set(pa.get(p, []) + a[1]))
                    continue
                if star_from is not None:
                    for p in pos_params[star_from:]:
                        pa[p] = sorted(set(pa.get(p, []) + a))
                    continue
                if i < len(pos_params):
                    pa[pos_params[i]] = a
                    raw[pos_params[i]] = r
                elif info.vararg is None:
                    self.unknown(f'too many positional arguments for {q}', e)
                i += 1
            for k, a in kwatoms.items():
                if k in info.params:
                    pa[k] = a
                    raw[k] = kw[k]
                elif info.kwarg is None:
                    self.unknown(f'unexpected keyword {k} for {q}', e)
            # variant selection (rule 2)
            bindings, split = {}, []
            for p in info.params:
                if p not in info.tested and not (p in info.defaults and isinstance(info.defaults[p], ast.Lambda)):
                    continue
                if star_from is not None and p in pos_params[star_from:]:
                    continue
                if p in raw and raw[p] is not None:
                    c = self.const_val(raw[p])
                    if c is not NOCONST and isinstance(c, (bool, int, float, str, type(None))):
                        bindings[p] = c
                    elif self.is_boolish(info, p) and len(split) < 2 and pa.get(p) == []:
                        split.append(p)
                    elif self.is_boolish(info, p) and len(split) < 2:
                        split.append(p)
                elif p in pa:
                    pass      # bound through self / receiver
                elif p in info.defaults:
                    dv = info.defaults[p]
                    if isinstance(dv, ast.Constant) and isinstance(dv.value, (bool, int, float, str, type(None))):
                        bindings[p] = dv.value
                    elif isinstance(dv, ast.Lambda):
                        bindings[p] = '<lambda-default>'
            if q in GUARD_SPLITS:
                split.append(GUARD_SPLITS[q])
            combos = [dict()]
            for p in split:
                combos = [dict(c, **{p: b}) for c in combos for b in (True, False)]
            alts = []
            for cmb in combos:
                b = dict(bindings, **cmb)
                key = (q, tuple(sorted(b.items(), key=lambda kv: kv[0])))
                self.gen.request(key)
                args = [pa.get(p, []) if p not in b else [] for p in info.params]
                args += [list(a) for a in extra]
                if len(args) < len(info.allparams):
                    args += [[] for _ in range(len(info.allparams) - len(args))]
                alts.append([('def', x, ('call', self.newsite(), self.newsite(), key, args))])
            node = alts[-1]
            for a in reversed(alts[:-1]):
                node = [('if', a, node)]
            self.blk.extend(node)
            blocks.append(self.blk)
        self.blk = saved
        node = blocks[-1]
        for b in reversed(blocks[:-1]):
            node = [('if', b, node)]
        self.blk.extend(node)
        return [x]

    def is_boolish(self, info, p):
        dv = info.defaults.get(p)
        if isinstance(dv, ast.Constant) and isinstance(dv.value, bool):
            return True
        return p in info.doctypes and info.doctypes[p][0].strip() == 'bool'

    def call_builtin(self, nm, e, kw):
        if nm in BUILTIN_SCALAR:
            self.args_eval(e.args, kw)
            return []
        args = self.args_eval(e.args, kw)
        flat = sorted({y for a in args for y in a})
        if nm in ('list', 'tuple', 'sorted', 'set', 'frozenset', 'reversed', 'iter'):
            return self.define(('fresh', self.newsite(), self.sub(flat), KL))
        if nm == 'dict':
            ys = list(flat)
            if e.args:
                ys = sorted(set(self.sub(self.sub(args[0])) + [y for a in args[1:] for y in a]))
            return self.define(('fresh', self.newsite(), ys, KL))
        if nm in ('zip', 'enumerate', 'map', 'filter'):
            if nm in ('map', 'filter'):
                return self.unknown(f'builtin {nm}', e)
            t = self.define(('fresh', self.newsite(), self.sub(flat), KL))
            return self.define(('fresh', self.newsite(), t, KL))
        if nm in ('min', 'max', 'sum', 'next'):
            # one of the arguments, one of their elements, or a new number / array
            return sorted(set(flat + self.sub(flat) + self.fresh([], KA))) if flat else []
        if nm == 'abs':
            return self.fresh([], KA) if flat else []
        if nm in ('open',):
            return self.fresh([], KL)
        if nm in ('any', 'all', 'divmod', 'pow'):
            return self.fresh([], KA) if flat else []
        if nm in ('ValueError', 'TypeError', 'NotImplementedError', 'KeyError', 'AssertionError', 'Exception',
                  'RuntimeError', 'IndexError'):
            return []
        return self.unknown(f'call of unknown function {nm}', e)

    def out_kw(self, kw, e):
        """out= : in-place write, the result is that array"""
        if 'out' in kw:
            o = self.E(kw['out'])
            if o:
                self.emit(('store!', o, []))
            return o
        return None

    def call_numpy(self, nm, e, kw):
        kw = dict(kw)
        out = self.out_kw(kw, e)
        kw.pop('out', None)
        args = self.args_eval(e.args, kw)
        flat = sorted({y for a in args for y in a})
        if out is not None:
            return out
        if nm in ('einsum', 'contract'):
            ops = [a for a, r in zip(args, e.args) if not (isinstance(r, ast.Constant) and isinstance(r.value, str))]
            if len(ops) <= 1:
                return sorted(set(flat + self.fresh([], KA)))
            self.gen.used.add(('np-fresh', ast.unparse(e.func)))
            return self.fresh([], KA)
        ow = []     # operands a LAPACK wrapper may overwrite: written in place AND possibly handed back as (part of) the result
        if nm in ('lstsq', 'solve', 'lu', 'qr', 'rq', 'svd', 'eigh', 'inv', 'solve_triangular', 'dct', 'dst', 'idct', 'idst',
                  'fft', 'ifft', 'rfft', 'irfft', 'cholesky', 'eig', 'eigvals', 'eigvalsh', 'det', 'lu_factor', 'pinv'):
            for k, pos in (('overwrite_a', 0), ('overwrite_b', 1), ('overwrite_x', 0)):
                if k in kw and not (isinstance(kw[k], ast.Constant) and kw[k].value is False):
                    if pos < len(args) and args[pos]:
                        self.emit(('store!', args[pos], []))
                        ow += list(args[pos])
        if nm == 'array':
            cp = kw.get('copy')
            if 'dtype' in kw and ast.unparse(kw['dtype']) == 'object':
                a0 = args[0] if args else []
                e1 = self.sub(a0)
                e2 = self.sub(e1)
                return self.define(('fresh', self.newsite(), sorted(set(a0 + e1 + e2)), KL))
            if cp is not None and not (isinstance(cp, ast.Constant) and cp.value is True):
                return sorted(set(flat + self.fresh([], KA)))
            return self.fresh([], KA)
        if nm in ('zeros', 'empty', 'ones', 'full') and 'dtype' in kw and ast.unparse(kw['dtype']) == 'object':
            return self.fresh([], KL)
        if nm == 'reduce':
            return self.unknown('functools.reduce', e)
        if nm == 'load':
            return self.fresh([], KL)
        if nm in NP_VIEW:
            a0 = args[0] if args else []
            if not a0:
                return self.fresh([], KA)       # asanyarray(list / number) builds a new array ...
            return self.define(('viewA', self.newsite(), a0))   # ... but an ndarray is passed through
        if nm in NP_WRITE_FIRST:
            if args and args[0]:
                self.emit(('store!', args[0], []))
            return []
        if nm in NP_SCALAR:
            self.gen.used.add(('np-scalar', ast.unparse(e.func)))
            return []
        if nm in NP_FRESH_TUPLE:
            self.gen.used.add(('np-fresh', ast.unparse(e.func)))
            t = sorted(set(self.fresh([], KA) + ow))
            return self.define(('fresh', self.newsite(), t, 'list'))
        if nm in NP_FRESH:
            self.gen.used.add(('np-fresh', ast.unparse(e.func)))
            return sorted(set(self.fresh([], KA) + ow))
        if nm == 'product':
            t = self.define(('fresh', self.newsite(), self.sub(flat), KL))
            return self.define(('fresh', self.newsite(), t, KL))
        if nm == 'jit':
            return []
        return self.unknown(f'call of unclassified library function {nm}', e)

    def call_method(self, f, e, kw):
        m = f.attr
        kw = dict(kw)
        recv = self.E(f.value)
        cls = self.static_class(f.value)
        if cls and m in self.pkg.classes[cls]:
            return self.call_package([self.pkg.classes[cls][m]], None, kw, e, raw_args=e.args, self_atom=recv)
        if m in self.pkg.methods and m not in M_FRESH | M_VIEW | M_WRITE | M_SCALAR | M_STORE1 | M_STOREELEM \
                and m not in ('copy', 'get', 'keys', 'values', 'items'):
            npos = len(e.args) + 1
            cands = [q for q in self.pkg.methods[m] if npos <= self.pkg.funcs[q].npos or self.pkg.funcs[q].vararg]
            if cands:
                return self.call_package(cands, None, kw, e, raw_args=e.args, self_atom=recv)
        out = self.out_kw(kw, e)
        kw.pop('out', None)
        args = self.args_eval(e.args, kw)
        flat = sorted({y for a in args for y in a})
        if out is not None:
            return out
        if m == 'shuffle':
            if args and args[0]:
                self.emit(('store!', args[0], []))
            return []
        if not recv:
            if m in M_SCALAR:
                return []
            # method of a value without identity (number, string, generator from a scalar seed, module-like)
            return self.fresh([], KA) if (m in M_FRESH or m in M_VIEW or m == 'copy') else \
                self.unknown(f'method {m} of a value without identity', e)
        if m in M_VIEW:
            return recv
        if m == 'copy':
            return self.define(('copy?', self.newsite(), recv))
        if m == 'astype':
            cp = kw.get('copy')
            if cp is not None and not (isinstance(cp, ast.Constant) and cp.value is True):
                return sorted(set(recv + self.fresh([], KA)))
            return self.fresh([], KA)
        if m in M_FRESH:
            self.gen.used.add(('m-fresh', m))
            return self.fresh([], KA)
        if m in M_SCALAR:
            self.gen.used.add(('m-scalar', m))
            return []
        if m in M_WRITE:
            self.emit(('store!', recv, []))
            return self.elem(recv) if m in ('pop', 'popitem') else []
        if m in M_STORE1 or m == 'insert':
            self.emit(('store?', recv, flat))
            return []
        if m in M_STOREELEM:
            self.emit(('store?', recv, self.sub(flat)))
            return []
        if m == 'setdefault':
            self.emit(('store?', recv, flat))
            return sorted(set(self.elem(recv) + flat))
        if m == 'get':
            return sorted(set(self.elem(recv) + flat))
        if m in ('keys', 'values', 'items'):
            return self.define(('fresh', self.newsite(), self.sub(recv), KL))
        # an object we know nothing about (polynomial, generator, ...): treat like a callback on (receiver, args)
        if m in ('integ', 'convert', 'roots', 'deriv', 'fit', 'linspace'):
            return self.fresh([], KA)
        return self.unknown(f'method {m} of an object', e)

    # -- statements ---------------------------------------------------------------------------------------------
    def block(self, stmts):
        for st in stmts:
            m = getattr(self, 'S_' + type(st).__name__, None)
            if m is None:
                self.unknown(f'statement {type(st).__name__}', st)
            else:
                m(st)

    def S_Pass(self, st):
        pass
    S_Import = S_ImportFrom = S_Global = S_Nonlocal = S_Pass

    def S_Raise(self, st):
        pass

    def S_Assert(self, st):
        self.E(st.test)

    def S_Expr(self, st):
        self.E(st.value)

    def S_Return(self, st):
        if st.value is None:
            return
        if isinstance(st.value, ast.Name) and st.value.id in self.funcvals and self.funcvals[st.value.id].var is None:
            return
        a = self.E(st.value)
        if a:
            self.emit(('ret', a))

    def S_Delete(self, st):
        for t in st.targets:
            if isinstance(t, ast.Name):
                self.cur[t.id] = SCALAR
            elif isinstance(t, ast.Subscript):
                b = self.E(t.value)
                if b:
                    self.emit(('store!', b, []))
            else:
                self.unknown('del target', st)

    def S_Assign(self, st):
        v = st.value
        if len(st.targets) == 1 and isinstance(st.targets[0], (ast.Tuple, ast.List)) and \
                isinstance(v, (ast.Tuple, ast.List)) and len(v.elts) == len(st.targets[0].elts) and \
                not any(isinstance(x, ast.Starred) for x in list(v.elts) + list(st.targets[0].elts)):
            atoms = [self.E(x) for x in v.elts]          # all right-hand sides first (simultaneous assignment)
            for t, a in zip(st.targets[0].elts, atoms):
                self.assign_target(t, a)
            return
        if isinstance(v, ast.Lambda) and len(st.targets) == 1 and isinstance(st.targets[0], ast.Name):
            a = self.E(v)
            self.bind_funcval(st.targets[0].id, self._last_closure)
            return
        a = self.E(v)
        for t in st.targets:
            self.assign_target(t, a)

    def bind_funcval(self, nm, fv):
        self.cur[nm] = fv.var
        self.funcvals[nm] = fv

    def S_AnnAssign(self, st):
        if st.value is not None:
            self.assign_target(st.target, self.E(st.value))

    def S_AugAssign(self, st):
        v = self.E(st.value)
        t = st.target
        if isinstance(t, ast.Name):
            a = self.atom_of_name(t.id)
            if a:
                self.emit(('store?', a, self.sub(v)))
        elif isinstance(t, (ast.Subscript, ast.Attribute)):
            base = self.E(t.value)
            if isinstance(t, ast.Subscript):
                self.E(t.slice)
            if base:
                el = self.sub(base) if isinstance(t, ast.Subscript) else self.elem(base)
                if el:
                    self.emit(('store?', el, self.sub(v)))
                self.emit(('store?' if isinstance(t, ast.Subscript) else 'store!', base, sorted(set(el + self.sub(v)))))
        else:
            self.unknown('augmented assignment target', st)

    def S_FunctionDef(self, st):
        self.make_closure(st, st.name)
        self.bind_funcval(st.name, self._last_closure)

    def S_With(self, st):
        for it in st.items:
            a = self.E(it.context_expr)
            if it.optional_vars is not None:
                self.assign_target(it.optional_vars, a)
        self.block(st.body)

    def terminated(self, stmts):
        return bool(stmts) and isinstance(stmts[-1], (ast.Return, ast.Raise, ast.Continue, ast.Break))

    def join_into(self, branches, names=None):
        """branches: list of (block, cur).  Appends copies so that every name has one version afterwards."""
        allnames = set()
        for _, c in branches:
            allnames |= set(c)
        newcur = {}
        for nm in allnames:
            vals = [c.get(nm) for _, c in branches]
            if all(v is vals[0] or v == vals[0] for v in vals):
                newcur[nm] = vals[0]
                continue
            objs = [v for v in vals if v is not None and v is not SCALAR and v is not FUNC]
            if not objs:
                newcur[nm] = SCALAR if any(v is SCALAR for v in vals) else vals[0]
                continue
            j = self.newvar()
            for (b, c) in branches:
                v = c.get(nm)
                if v is not None and v is not SCALAR and v is not FUNC:
                    b.append(('def', j, ('vars', [v])))
            newcur[nm] = j
        return newcur

    def S_If(self, st):
        c = self.const_test(st.test)
        if c is True:
            return self.block(st.body)
        if c is False:
            return self.block(st.orelse)
        self.E(st.test)
        saved, cur0, fv0 = self.blk, dict(self.cur), dict(self.funcvals)
        self.blk, self.cur = [], dict(cur0)
        self.apply_refine(self.refine(st.test, True))
        self.block(st.body)
        b1, c1, f1 = self.blk, self.cur, self.funcvals
        self.blk, self.cur, self.funcvals = [], dict(cur0), dict(fv0)
        self.apply_refine(self.refine(st.test, False))
        self.block(st.orelse)
        b2, c2, f2 = self.blk, self.cur, self.funcvals
        self.blk = saved
        t1, t2 = self.terminated(st.body), self.terminated(st.orelse)
        if t1 and not t2:
            self.cur, self.funcvals = c2, f2
        elif t2 and not t1:
            self.cur, self.funcvals = c1, f1
        else:
            self.cur = self.join_into([(b1, c1), (b2, c2)])
            self.funcvals = {k: v for k, v in f1.items() if f2.get(k) is v}
        self.emit(('if', b1, b2))

    def loop_common(self, st, body_fn, atleast1):
        assigned = self.scan_assigned(st.body) | self.scan_assigned(getattr(st, 'orelse', []))
        if isinstance(st, ast.For):
            assigned |= {n.id for n in ast.walk(st.target) if isinstance(n, ast.Name)}
        heads, afters = {}, {}
        for nm in sorted(assigned):
            h = self.newvar()
            heads[nm] = h
            afters[nm] = self.newvar()
            c = self.cur.get(nm)
            if c is not None and c is not SCALAR and c is not FUNC:
                self.emit(('def', h, ('vars', [c])))
            self.cur[nm] = h
            self.funcvals.pop(nm, None)
        self.loops.append((heads, afters))
        saved = self.blk
        self.blk = []
        body_fn()
        self.back_edge()
        body, self.blk = self.blk, saved
        self.loops.pop()
        self.emit(('loop', atleast1, body))
        for nm in assigned:
            self.cur[nm] = afters[nm] if atleast1 else heads[nm]
        if not atleast1:
            pass

    def back_edge(self):
        """state flows to the loop head (and to the loop exit)"""
        heads, afters = self.loops[-1]
        for nm, h in heads.items():
            c = self.cur.get(nm)
            if c is not None and c is not SCALAR and c is not FUNC:
                if c != h:
                    self.emit(('def', h, ('vars', [c])))
                self.emit(('def', afters[nm], ('vars', [c])))

    def S_Continue(self, st):
        if self.loops:
            self.back_edge()
    S_Break = S_Continue

    def S_For(self, st):
        src = ast.unparse(st.iter)
        inner = src
        m = re.match(r'^(zip|enumerate)\((.*)\)$', src)
        al1 = bool(AT_LEAST_ONCE.match(src))
        if m:
            parts = [p.strip() for p in re.split(r',\s*(?![^()]*\))', m.group(2))]
            parts = [p for p in parts if not p.startswith('start=')]
            al1 = all(AT_LEAST_ONCE.match(p) or re.match(r'^range\(1, \w+(\.shape\[-1\])?\)$', p) for p in parts) \
                and any(AT_LEAST_ONCE.match(p) for p in parts)
        al1 = False     # rule 5 WITHDRAWN: every loop may run zero times (d = 1, q = 1, a single sample, an empty list)
        has_break = any(isinstance(n, ast.Break) for n in ast.walk(st))

        def body():
            el = self.iter_elem(st.iter)
            self.assign_target(st.target, el)
            self.block(st.body)
        self.loop_common(st, body, al1)
        if st.orelse:
            self.block(st.orelse)

    def S_While(self, st):
        def body():
            self.E(st.test)
            self.block(st.body)
        self.loop_common(st, body, False)
        if st.orelse:
            self.block(st.orelse)

    def S_Try(self, st):
        assigned = self.scan_assigned(st.body)
        cur0 = dict(self.cur)
        self.block(st.body)
        self.block(st.orelse)
        saved = self.blk
        branches = [(saved, dict(self.cur))]
        hblocks = []
        for h in st.handlers:
            self.blk = []
            self.cur = dict(branches[0][1])
            for nm in assigned:       # the body may have been interrupted anywhere
                a, b = cur0.get(nm), branches[0][1].get(nm)
                objs = [v for v in (a, b) if v is not None and v is not SCALAR and v is not FUNC]
                if a is not b and objs:
                    self.cur[nm] = self.define(('vars', sorted(set(objs))))[0]
            if h.name:
                self.cur[h.name] = SCALAR
            self.block(h.body)
            branches.append((self.blk, self.cur))
            hblocks.append((self.blk, self.terminated(h.body)))
        self.blk = saved
        live = [branches[0]] + [br for br, (_, term) in zip(branches[1:], hblocks) if not term]
        mark = len(saved)
        self.cur = self.join_into(live)
        tail = saved[mark:]           # copies for the path without exception: must not follow the handlers
        del saved[mark:]
        node = list(tail)
        for b, _ in reversed(branches[1:]):
            node = [('if', b, node)]
        self.blk.extend(node)
        self.block(st.finalbody)


class _NoConst:
    def __repr__(self):
        return 'NOCONST'


NOCONST = _NoConst()


# ------------------------------------------------------------------------------------------------------------------
# whole-package generation: variants, kinds, lowering, analysis, emission
# ------------------------------------------------------------------------------------------------------------------
def simple_const(dv):
    return isinstance(dv, ast.Constant) and isinstance(dv.value, (bool, int, float, str, type(None)))


def flat_nodes(blk):
    for n in blk:
        if n[0] == 'if':
            yield from flat_nodes(n[1])
            yield from flat_nodes(n[2])
        elif n[0] == 'loop':
            yield from flat_nodes(n[2])
        else:
            yield n


class Gen:
    def __init__(self, repo):
        self.pkg = Package(repo)
        self.variants = {}      # key -> Variant
        self.order = []
        self.work = []
        self.lifted = {}        # qual -> FnInfo
        self.api = []           # (exported name, key)
        self.notes = []
        self.uncovered = []
        self.used = set()       # (class, dotted name) of every 'fresh' / 'no identity' table entry the translation relied on

    IMMUTABLE_NUMBER_TYPES = {'int', 'float', 'bool', 'complex', 'np.number', 'np.integer', 'np.floating', 'np.int32',
                              'np.int64', 'np.float32', 'np.float64', 'np.bool_', 'np.generic'}

    def is_num_immutable(self):
        """does utils._is_num(A) accept only values without mutable identity?  Its body must be the single statement
        `return isinstance(A, <immutable number types>)` (Python numbers, NumPy scalars); anything else -- e.g. accepting a
        0-d ndarray, which is mutable -- withdraws the refinement 'x is a Scalar in the true branch of _is_num(x)'."""
        if not hasattr(self, '_is_num_ok'):
            ok = False
            info = self.pkg.funcs.get('utils._is_num')
            if info is not None:
                body = [st for st in info.node.body if not (isinstance(st, ast.Expr) and isinstance(st.value, ast.Constant))]
                if len(body) == 1 and isinstance(body[0], ast.Return) and isinstance(body[0].value, ast.Call):
                    c = body[0].value
                    if ast.unparse(c.func) == 'isinstance' and len(c.args) == 2 and isinstance(c.args[0], ast.Name) \
                            and c.args[0].id == info.params[0]:
                        ty = c.args[1]
                        names = [ast.unparse(x) for x in (ty.elts if isinstance(ty, ast.Tuple) else [ty])]
                        ok = bool(names) and set(names) <= self.IMMUTABLE_NUMBER_TYPES
            self._is_num_ok = ok
            if not ok:
                self.notes.append('utils._is_num is not `return isinstance(A, <immutable number types>)`: rule 3 withdrawn '
                                  'for _is_num(x) (a value it accepts may be a mutable 0-d ndarray)')
        return self._is_num_ok

    # -- variants ---------------------------------------------------------------------------------------------------
    def request(self, key):
        if key not in self.variants:
            info = self.pkg.funcs.get(key[0]) or self.lifted[key[0]]
            v = Variant(key, info)
            v.idx = len(self.order)
            self.variants[key] = v
            self.order.append(v)
            self.work.append(v)
        return self.variants[key]

    def lift(self, tr, node, name, caps):
        q = f'{tr.info.qual}/{name}@{getattr(node, "lineno", 0)}' + ('' if not caps else '[' + ','.join(caps) + ']')
        if q not in self.lifted:
            self.lifted[q] = FnInfo(q, node, tr.info.mod, captured=caps, is_lambda=isinstance(node, ast.Lambda))
        return q

    def public_keys(self, qual):
        info = self.pkg.funcs[qual]
        bind, split = {}, []
        nodoc = not info.doctypes      # no `Args:` section at all (core_dot & co): boolean flags the body tests are
                                       # specialised both ways, the other defaulted parameters stay at their default
        for p in info.params:
            dv = info.defaults.get(p)
            if nodoc:
                if isinstance(dv, ast.Constant) and isinstance(dv.value, bool) and p in info.tested and len(split) < 4:
                    split.append(p)
                elif dv is not None and simple_const(dv):
                    bind[p] = dv.value       # rule 2 as for any parameter that no `Args:` entry describes
                elif isinstance(dv, ast.Lambda):
                    bind[p] = '<lambda-default>'
            elif p not in info.doctypes:
                if dv is not None and simple_const(dv):
                    bind[p] = dv.value
                elif isinstance(dv, ast.Lambda):
                    bind[p] = '<lambda-default>'
            elif info.doctypes[p][0].strip() == 'bool' and p in info.tested and len(split) < 4:
                split.append(p)
        if qual in GUARD_SPLITS:
            split.append(GUARD_SPLITS[qual])
        combos = [dict()]
        for p in split:
            combos = [dict(c, **{p: b}) for c in combos for b in (True, False)]
        return [(qual, tuple(sorted(dict(bind, **c).items(), key=lambda kv: kv[0]))) for c in combos]

    def build(self):
        self.helpers, self.classes_exported = [], []
        for nm, (what, q) in sorted(self.pkg.exports.items()):
            if what == 'func' and not nm.startswith('_'):
                for key in self.public_keys(q):
                    self.request(key)
                    self.api.append((nm, key))
            elif what == 'func':
                self.helpers.append(nm)        # underscore helpers: analysed as callees only
            else:
                self.classes_exported.append(nm)   # classes: their methods are analysed as callees of anova / anova_func
        while self.work:
            v = self.work.pop()
            tr = Tr(self, v)
            info = v.info
            try:
                if info.is_lambda:
                    a = tr.E(info.node.body)
                    if a:
                        tr.emit(('ret', a))
                else:
                    body = info.node.body
                    tr.block(body)
            except RecursionError:
                raise
            except Exception as ex:           # fail closed
                import traceback
                tr.unknown('translator exception ' + repr(ex)[:100] + ' ' +
                           traceback.format_exc().strip().splitlines()[-3][:80])
            v.body = tr.blk
        self.infer_kinds()
        for v in self.order:
            self.lower(v)
        self.summaries()

    # -- kinds ------------------------------------------------------------------------------------------------------
    def infer_kinds(self):
        """forward propagation of kinds; `dem`: lists that may have received a non-array element (through any alias)"""
        for v in self.order:
            v.k = dict(v.varkind)
            v.dem = set()

            def kind(ys, v=v):
                out = BOT
                for y in ys:
                    ky = v.k.get(y, BOT)
                    if ky == KLA and y in v.dem:
                        ky = KL
                    out = kjoin(out, ky)
                return out
            v.kind = kind
        changed = True
        while changed:
            changed = False
            for v in self.order:
                k, dem, kind = v.k, v.dem, v.kind

                def up(x, kd, k=k):
                    nonlocal changed
                    nk = kjoin(k.get(x, BOT), kd)
                    if nk != k.get(x, BOT):
                        k[x] = nk
                        changed = True

                def demote(x, dem=dem):
                    nonlocal changed
                    if x not in dem:
                        dem.add(x)
                        changed = True
                for n in flat_nodes(v.body):
                    if n[0] == 'def':
                        x, e = n[1], n[2]
                        t = e[0]
                        if t == 'vars':
                            up(x, kind(e[1]))
                            if x in dem:
                                for y in e[1]:
                                    demote(y)
                            if any(y in dem for y in e[1]):
                                demote(x)
                        elif t == 'elem':
                            up(x, kelem(kind(e[1])))
                        elif t == 'iter?':
                            up(x, kelem(kind(e[1])))
                        elif t == 'sub?':
                            kk = kind(e[1])
                            up(x, kk if (e[2] or kk in (BOT, KA, KL)) else KA)
                            if e[2] and (x in dem or any(y in dem for y in e[1])):
                                demote(x)
                                for y in e[1]:
                                    demote(y)
                        elif t == 'fresh':
                            kd = e[3]
                            if kd == 'list':
                                kd = KLA if kind(e[2]) in (BOT, KA) else KL
                            up(x, kd)
                        elif t == 'bin?':
                            up(x, self.bin_kind(v, e)[1])
                        elif t == 'copy?':
                            kr = kind(e[2])
                            up(x, KLA if kr == KLA else KA)
                        elif t in ('cast', 'viewA'):
                            up(x, KA)
                        elif t == 'call':
                            up(x, self.variants[e[3]].retkind)
                        elif t == 'callback':
                            up(x, KL)
                    elif n[0] in ('store?', 'store!'):
                        if kind(n[2]) not in (BOT, KA):
                            for y in n[1]:
                                if k.get(y, BOT) == KLA:
                                    demote(y)
                    elif n[0] == 'ret':
                        nk = kjoin(v.retkind, kind(n[1]))
                        if nk != v.retkind:
                            v.retkind = nk
                            changed = True

    def bin_kind(self, v, e):
        """rule 4: list + list and list * number build a list holding the operands' elements"""
        _, s, op, l, r = e
        kl, kr = v.kind(l), v.kind(r)
        lst = (KLA, KL)
        if op == 'add':
            concat = bool(l) and bool(r) and kl in lst and kr in lst
        else:
            concat = (bool(l) and not r and kl in lst) or (bool(r) and not l and kr in lst)
        if not concat:
            return False, KA
        ek = kjoin(kelem(kl) if (l and kl in lst) else BOT, kelem(kr) if (r and kr in lst) else BOT)
        return True, (KLA if ek in (BOT, KA) else KL)

    # -- lowering ---------------------------------------------------------------------------------------------------
    def lower(self, v):
        def newvar():
            v.nvars += 1
            return v.nvars - 1

        def low(blk):
            out = []
            for n in blk:
                if n[0] == 'if':
                    out.append(('if', low(n[1]), low(n[2])))
                elif n[0] == 'loop':
                    out.append(('loop', n[1], low(n[2])))
                elif n[0] == 'def':
                    x, e = n[1], n[2]
                    t = e[0]
                    if t in ('vars', 'elem'):
                        out.append(('def', x, (t, list(e[1])) if e[1] else ('scalar',)))
                    elif t == 'fresh':
                        out.append(('def', x, ('fresh', e[1], list(e[2]))))
                    elif t == 'bin?':
                        concat, _ = self.bin_kind(v, e)
                        ys = []
                        if concat and (e[3] or e[4]):
                            tv = newvar()
                            out.append(('def', tv, ('elem', sorted(set(e[3] + e[4])))))
                            ys = [tv]
                        out.append(('def', x, ('fresh', e[1], ys)))
                    elif t == 'copy?':
                        ys = []
                        if v.kind(e[2]) == KLA:      # list.copy() is shallow; anything else: ndarray.copy / fancy index
                            tv = newvar()
                            out.append(('def', tv, ('elem', list(e[2]))))
                            ys = [tv]
                        out.append(('def', x, ('fresh', e[1], ys)))
                    elif t == 'cast':
                        out.append(('def', x, ('vars', list(e[1]))))
                    elif t in ('iter?', 'sub?'):
                        kk = v.kind(e[1])
                        if kk in (BOT, KA) or (t == 'sub?' and e[2] and kk == KLA):
                            out.append(('def', x, ('vars', list(e[1]))))
                        elif kk == KLA:
                            out.append(('def', x, ('elem', list(e[1]))))
                        else:
                            tv = newvar()
                            out.append(('def', tv, ('elem', list(e[1]))))
                            out.append(('def', x, ('vars', sorted(set(list(e[1]) + [tv])))))
                    elif t == 'viewA':
                        tv = newvar()
                        out.append(('def', tv, ('fresh', e[1], [])))
                        out.append(('def', x, ('vars', sorted(set(e[2] + [tv])))))
                    elif t in ('call', 'callback'):
                        out.append(n)
                    else:
                        raise AssertionError(t)
                elif n[0] == 'store?':
                    keep = v.kind(n[1]) not in (BOT, KA)
                    out.append(('store', list(n[1]), list(n[2]) if keep else []))
                elif n[0] == 'store!':
                    out.append(('store', list(n[1]), list(n[2])))
                else:
                    out.append(n)
            return out
        v.ir = low(v.body)
        v.flat = list(flat_nodes(v.ir))

    # -- abstract analysis (computes the certificate) ------------------------------------------------------------
    def analyse(self, v):
        """least certificate (env, cont, contp, E, S, W per call) for the current callee summaries"""
        np_ = len(v.info.allparams)
        env = [set() for _ in range(v.nvars)]
        for p in range(np_):
            env[p].add(('A', p))
        cont = [set() for _ in range(v.nsites)]
        contp, E = set(), set()
        W = {}
        wr0, wr = set(), set()

        def elem(a):
            return cont[a[1]] if a[0] == 'S' else ({('I', a[1])} | contp)

        def avars(ys):
            out = set()
            for y in ys:
                out |= env[y]
            return out

        def aelem(A):
            out = set()
            for a in A:
                out |= elem(a)
            return out

        def closure(A):
            A = set(A)
            todo = list(A)
            while todo:
                a = todo.pop()
                for b in elem(a):
                    if b not in A:
                        A.add(b)
                        todo.append(b)
            return A
        changed = True

        def add(S, new):
            nonlocal changed
            if not new <= S:
                S |= new
                changed = True

        def store_into(targets, vals):
            for a in targets:
                if a[0] == 'S':
                    add(cont[a[1]], vals)
                else:
                    add(contp, vals)
                    add(wr0 if a[0] == 'A' else wr, {a[1]})
        while changed:
            changed = False
            for n in v.flat:
                if n[0] == 'def':
                    x, e = n[1], n[2]
                    t = e[0]
                    if t == 'vars':
                        add(env[x], avars(e[1]))
                    elif t == 'elem':
                        add(env[x], aelem(avars(e[1])))
                    elif t == 'fresh':
                        add(env[x], {('S', e[1])})
                        add(cont[e[1]], avars(e[2]))
                    elif t == 'callback':
                        s, args = e[1], e[2]
                        A = {('S', s)} | cont[s]
                        for a in args:
                            A |= avars(a)
                        A = closure(A)
                        add(cont[s], A)
                        add(env[x], A)
                    elif t == 'call':
                        sr, ss, cal, args = e[1], e[2], self.variants[e[3]], e[4]
                        R = {('S', sr)} | cont[sr]
                        for p in cal.esc:
                            if p < len(args):
                                R |= avars(args[p])
                        R = closure(R)
                        add(cont[sr], R)
                        add(env[x], R)
                        S = {('S', ss), ('S', sr)} | cont[ss]
                        for p in cal.sto:
                            if p < len(args):
                                S |= avars(args[p])
                        S = closure(S)
                        add(cont[ss], S)
                        Wd = set()
                        for p in cal.wr:
                            if p < len(args):
                                Wd |= avars(args[p])
                        Wd = closure(Wd)
                        W[id(n)] = Wd
                        tg = set(Wd)
                        for p in cal.wr0:
                            if p < len(args):
                                tg |= avars(args[p])
                        store_into(tg, S)
                elif n[0] == 'store':
                    store_into(avars(n[1]), avars(n[2]))
                elif n[0] == 'ret':
                    add(E, avars(n[1]))
            add(E, closure(E))
        Sx = closure(contp)
        v.cert = dict(env=env, cont=cont, contp=contp, E=E, S=Sx, W=W)
        esc = {a[1] for a in E if a[0] != 'S'}
        sto = {a[1] for a in Sx if a[0] != 'S'}
        return wr0, wr, esc, sto

    def summaries(self):
        for rnd in range(60):
            ch = False
            for v in self.order:
                new = self.analyse(v)
                if new != (v.wr0, v.wr, v.esc, v.sto):
                    v.wr0, v.wr, v.esc, v.sto = new
                    ch = True
            if not ch:
                return
        raise RuntimeError('summaries did not converge')

    # -- exception table mirror (only for readable diagnostics; the verdict is Coq's fn_clean) -------------------
    @staticmethod
    def may_write(qual, flags, pn):
        return pn in ('info', 'cache') or \
            (qual in ('transformation.orthogonalize_left', 'transformation.orthogonalize_right')
             and flags.get('inplace') is True and pn == 'Y') or (qual.count('.') >= 2 and pn == 'self')

    @staticmethod
    def may_return(qual, flags, pn):
        return (qual in ('transformation.orthogonalize_left', 'transformation.orthogonalize_right')
                and flags.get('inplace') is True and pn == 'Y') or \
            (qual == 'grid.grid_prep_opt' and pn == 'opt') or \
            (qual == 'grid.grid_prep_opts' and pn in ('a', 'b', 'n')) or \
            (qual == 'core.core_stab' and flags.get('v_max <= thr') is True and pn == 'G') or \
            (qual.count('.') >= 2 and pn == 'self')

    def report(self):
        """per exported name: variants with the parameters written / escaping beyond the exception table"""
        out = []
        for nm, key in self.api:
            v = self.variants[key]
            flags = dict(key[1])
            ps = v.info.allparams
            bw = sorted(ps[p] for p in v.wr0 | v.wr if not self.may_write(key[0], flags, ps[p]))
            br = sorted({ps[p] for p in v.esc if not self.may_return(key[0], flags, ps[p])} |
                        {ps[p] for p in v.sto if not (self.may_return(key[0], flags, ps[p]) or ps[p] in ('info', 'cache'))})
            out.append(dict(name=nm, qual=key[0], flags={k: str(x) for k, x in key[1]}, idx=v.idx,
                            writes=sorted(ps[p] for p in v.wr0 | v.wr), escapes=sorted(ps[p] for p in v.esc | v.sto),
                            bad_writes=bw, bad_escapes=br, unknown=list(v.unknown)))
        return out

    def all_unknown(self):
        return [(v.key[0], u) for v in self.order for u in v.unknown]

    # -- emission -----------------------------------------------------------------------------------------------
    def emit_coq(self):
        def nl(xs):
            return '[' + '; '.join(str(int(x)) for x in xs) + ']'

        def ao(a):
            return {'A': 'AArg', 'I': 'AIn', 'S': 'ASite'}[a[0]] + ' ' + str(a[1])

        def aset(A):
            return '[' + '; '.join(ao(a) for a in sorted(A)) + ']'

        def st(s):
            return '"' + s.replace('"', "'") + '"'

        def cmd(blk, v):
            if not blk:
                return 'CSkip'
            parts = [one(n, v) for n in blk]
            out = parts[-1]
            for p in reversed(parts[:-1]):
                out = f'CSeq ({p}) ({out})'
            return out

        def one(n, v):
            t = n[0]
            if t == 'def':
                x, e = n[1], n[2]
                k = e[0]
                if k == 'scalar':
                    ex = 'EScalar'
                elif k == 'vars':
                    ex = f'EVars {nl(e[1])}'
                elif k == 'elem':
                    ex = f'EElem {nl(e[1])}'
                elif k == 'fresh':
                    ex = f'EFresh {e[1]} {nl(e[2])}'
                elif k == 'call':
                    args = '[' + '; '.join(nl(a) for a in e[4]) + ']'
                    ex = f'ECall {e[1]} {e[2]} {self.variants[e[3]].idx} {args} {aset(v.cert["W"].get(id(n), set()))}'
                elif k == 'callback':
                    args = '[' + '; '.join(nl(a) for a in e[2]) + ']'
                    ex = f'ECallback {e[1]} {args}'
                return f'CDef {x} ({ex})'
            if t == 'store':
                return f'CStore {nl(n[1])} {nl(n[2])}'
            if t == 'ret':
                return f'CReturn {nl(n[1])}'
            if t == 'if':
                return f'CIf ({cmd(n[1], v)}) ({cmd(n[2], v)})'
            if t == 'loop':
                return f'CLoop {"true" if n[1] else "false"} ({cmd(n[2], v)})'
            if t == 'unknown':
                return f'CUnknown {st(n[1])}'
            raise AssertionError(t)
        L = ['(* GENERATED by harness/skeleton_c09.py from ' + self.pkg.repo + ' -- do not edit *)',
             'From Coq Require Import List String.', 'From TV Require Import Model.Heap.',
             'Import ListNotations.', 'Open Scope string_scope.', '']
        for v in self.order:
            c = v.cert
            flags = '[' + '; '.join(f'({st(k)}, {st(str(x))})' for k, x in v.key[1]) + ']'
            params = '[' + '; '.join(st(p) for p in v.info.allparams) + ']'
            L.append(f'Definition f_{v.idx} : fn := mkfn {st(v.key[0])} {flags} {params}')
            L.append(f'  {nl(sorted(v.wr0))} {nl(sorted(v.wr))} {nl(sorted(v.esc))} {nl(sorted(v.sto))}')
            L.append('  [' + '; '.join(aset(A) for A in c['env']) + ']')
            L.append('  [' + '; '.join(aset(A) for A in c['cont']) + ']')
            L.append(f'  {aset(c["contp"])} {aset(c["E"])} {aset(c["S"])}')
            L.append(f'  ({cmd(v.ir, v)}).')
        L.append('')
        L.append('Definition skel_prog : prog := [' + '; '.join(f'f_{v.idx}' for v in self.order) + '].')
        L.append('Definition skel_api : list nat := ' + nl([self.variants[k].idx for _, k in self.api]) + '.')
        L.append('')
        return '\n'.join(L)


def generate(repo, out=None):
    g = Gen(repo)
    g.build()
    txt = g.emit_coq()
    if out:
        os.makedirs(os.path.dirname(out), exist_ok=True)
        old = open(out).read() if os.path.exists(out) else None
        if old != txt:
            open(out, 'w').write(txt)
    return g


if __name__ == '__main__':
    import sys
    repo = sys.argv[1] if len(sys.argv) > 1 else '/repo'
    g = generate(repo, sys.argv[2] if len(sys.argv) > 2 else None)
    bad = 0
    for r in g.report():
        if r['bad_writes'] or r['bad_escapes'] or r['unknown']:
            bad += 1
            print(r['name'], r['flags'], 'writes', r['bad_writes'], 'escapes', r['bad_escapes'], r['unknown'][:3])
    unk = g.all_unknown()
    print(len(g.order), 'variants,', len(g.api), 'api entries,', bad, 'flagged,', len(unk), 'unknown constructs')
    for q, u in unk[:40]:
        print('  UNKNOWN', u)
