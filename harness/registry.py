"""What MANIFEST.json claims, per property (source of truth for harness/mkmanifest.py)."""
CHECKS = {
    'C17': dict(
        text='Index maps: Coq theorems for every d and every q>=1 (both compositions are the identity, lengths, '
             'rejection of non-powers of two) about the model Model/GridInd.v; the model is tied to grid.py by exact, '
             'exhaustive correspondence over every multi-index with q*d<=8 (12 thorough) plus a malformed stream.',
        note='Trusted: Coq kernel, vm_compute for case evaluation, the hand-written model (validated by the '
             'correspondence), numpy ravel/unravel semantics.',
        technique='Coq proof (induction over digits) + exhaustive model/implementation correspondence'),
}
NOT_APPLICABLE = {}
