"""What MANIFEST.json claims, per property: collected from the CLAIM dict of every harness/props/Cxx.py.
A module without CLAIM (work in progress) is not claimed."""
import glob
import importlib
import os
import sys

HERE = os.path.dirname(os.path.abspath(__file__))
# checks the lead has run on the unchanged tree and against mutants; only these are claimed in MANIFEST.json
READY = ['C01', 'C02', 'C03', 'C04', 'C05', 'C06', 'C07', 'C08', 'C09', 'C10', 'C11', 'C12', 'C13', 'C14', 'C15', 'C16', 'C17', 'C18', 'C19', 'C20']
CHECKS = {}
for f in sorted(glob.glob(os.path.join(HERE, 'props', 'C*.py'))):
    pid = os.path.basename(f)[:-3]
    if pid not in READY:
        continue
    try:
        m = importlib.import_module(f'harness.props.{pid}')
    except Exception as e:  # a broken module is simply not claimed
        print(f'registry: cannot import {pid}: {e!r}', file=sys.stderr)
        continue
    if hasattr(m, 'CLAIM'):
        CHECKS[pid] = m.CLAIM
NOT_APPLICABLE = {}
