#!/venv/bin/python
"""Regenerates seeded/SUMMARY.md from seeded/*/meta.json."""
import glob, json, os
HERE = os.path.dirname(os.path.dirname(os.path.abspath(__file__)))
rows = []
for f in sorted(glob.glob(os.path.join(HERE, 'seeded', '*', 'meta.json'))):
    m = json.load(open(f))
    rows.append((os.path.basename(os.path.dirname(f)), m))
out = ['# Independently seeded changes (one row per change)', '',
       'first verdict = what `./check <property>` said the first time it was run against the change (before any',
       'strengthening); current = after strengthening. "caught (input)" = VIOLATION with a failing input replayable on the',
       'implementation; "caught (corr)" = VIOLATION ... no-failing-input-found (a proof obligation or the correspondence broke).', '',
       '| id | property | needs, in order to manifest | first verdict | current verdict |', '|---|---|---|---|---|']
for name, m in rows:
    out.append(f"| {name} | {m['property']} | {m.get('needs_to_manifest','').replace('|','/')} | {m.get('first_verdict','').replace('|','/')} | "
               f"{m.get('check_verdict','').replace('|','/')} |")
open(os.path.join(HERE, 'seeded', 'SUMMARY.md'), 'w').write('\n'.join(out) + '\n')
print(len(rows), 'rows')
